"""A10 - Environment field-flow: an abstract interpreter over the syntax of check::constrain::generate.

`Environment` is an immutable record updated by builder methods `Environment { f: <e>, ..self.clone() }`.
For every function  g(.., env: &Environment, ..) -> Constrained  the abstract value of every field of each *returned*
environment is computed from the body.  Assume/guarantee on calls: a call of an analysed function with environment E returns
E with the data fields {vars, var_mapping, unassigned} replaced by a fresh term Gen(E) and all other (scoping) fields unchanged;
each function is checked to guarantee exactly that.  This is an induction over the AST, so a broken arm is reported where it is.

Field values:
   ("in", f)                       the value the function received
   ("const", text)                 a constant written by a builder (`in_loop: true`)
   ("arg", text)                   assigned from an expression that is not a copy of a field
   ("upd", op, prev, arg)          builder that combines the previous value with an argument (union / intersection / insert / remove)
   ("gen", n)                      data field after an analysed call (n: ordinal of the call, distinct calls are distinct terms)
   ("join", frozenset)             differs between paths
   ("unknown", why)
"""
from collections import defaultdict
from .common import is_node_scrutinee, walk, src, strip, AnchorError, pat_alternatives, tail_expr, load_table

SCOPING = ["raises_caught", "in_loop", "in_fun", "return_type", "class", "is_expr", "is_def_mode", "is_destruct_mode"]
DATA = ["vars", "var_mapping", "unassigned"]
MOD = "check::constrain::generate"


class EnvV:
    """abstract environment: field -> value"""
    __slots__ = ("f",)

    def __init__(self, f):
        self.f = dict(f)

    def set(self, k, v):
        d = dict(self.f)
        d[k] = v
        return EnvV(d)

    def __eq__(self, o):
        return isinstance(o, EnvV) and self.f == o.f

    def __hash__(self):
        return hash(tuple(sorted(self.f.items(), key=lambda kv: kv[0])))


class FieldV:
    """a copy of a field value held in a local (`let before = env.raises_caught.clone()`)"""
    __slots__ = ("v",)

    def __init__(self, v):
        self.v = v


class Coll:
    """a collection / Option of environments (Vec pushed in a loop, reduce result)"""
    __slots__ = ("elems",)

    def __init__(self, elems):
        self.elems = elems  # EnvV or None


def join_val(a, b):
    if a == b:
        return a
    sa = a[1] if a[0] == "join" else frozenset([a])
    sb = b[1] if b[0] == "join" else frozenset([b])
    return ("join", sa | sb)


def join_env(a, b):
    if a is None:
        return b
    if b is None:
        return a
    if isinstance(a, EnvV) and isinstance(b, EnvV):
        return EnvV({k: join_val(a.f[k], b.f[k]) for k in a.f})
    if isinstance(a, Coll) and isinstance(b, Coll):
        return Coll(join_env(a.elems, b.elems))
    if isinstance(a, Coll) and isinstance(b, EnvV):
        return Coll(join_env(a.elems, b))
    if isinstance(b, Coll) and isinstance(a, EnvV):
        return Coll(join_env(b.elems, a))
    if isinstance(a, FieldV) and isinstance(b, FieldV):
        return FieldV(join_val(a.v, b.v))
    return a if type(a) is type(b) else None


def render(v, depth=0):
    k = v[0]
    if k == "in":
        return f"in.{v[1]}"
    if k in ("const", "arg"):
        return f"{k}({v[1]})"
    if k == "upd":
        return f"{v[1]}({render(v[2])}, {render(v[3]) if isinstance(v[3], tuple) else v[3]})"
    if k == "gen":
        return f"gen#{v[1]}" if not isinstance(v[1], tuple) else "changed(" + ",".join(v[1][1]) + ")"
    if k == "join":
        return "join{" + ", ".join(sorted(render(x) for x in v[1])) + "}"
    if k == "ite":
        return f"(if in.{v[1]} then {render(v[2])} else {render(v[3])})"
    return f"unknown({v[1]})"


def depth(v):
    if not isinstance(v, tuple):
        return 0
    if v[0] in ("upd",):
        return 1 + max(depth(v[2]), depth(v[3]) if isinstance(v[3], tuple) else 0)
    if v[0] == "join":
        return 1 + max(depth(x) for x in v[1])
    if v[0] == "ite":
        return 1 + max(depth(v[2]), depth(v[3]))
    return 0


_WIDEN = [1000]


def widen(v):
    """collapse deep terms (loops re-applying builders) to one opaque value; keeps conditional structure near the top"""
    if depth(v) <= 3:
        return v
    if v[0] == "ite":
        return ("ite", v[1], widen(v[2]), widen(v[3]))
    if v[0] == "join":
        parts = frozenset(widen(x) for x in v[1])
        return next(iter(parts)) if len(parts) == 1 else ("join", parts)
    _WIDEN[0] += 1
    return ("gen", ("w", _sig(v)))


def _sig(v):
    """a stable signature of a widened term: the set of builder names and leaves it is made of"""
    acc = set()

    def go(x):
        if not isinstance(x, tuple):
            return
        if x[0] == "upd":
            acc.add(x[1])
            go(x[2])
            if isinstance(x[3], tuple):
                go(x[3])
        elif x[0] == "join":
            for y in x[1]:
                go(y)
        elif x[0] == "ite":
            go(x[2])
            go(x[3])
        elif x[0] == "in":
            acc.add("in." + x[1])
        elif x[0] == "gen":
            acc.add("gen")
    go(v)
    return tuple(sorted(acc))


def _canon(v, ren):
    if not isinstance(v, tuple):
        return v
    k = v[0]
    if k == "gen":
        if isinstance(v[1], tuple):
            return v
        if v[1] not in ren:
            ren[v[1]] = len(ren)
        return ("gen", "g")
    if k == "upd":
        return ("upd", v[1], _canon(v[2], ren), _canon(v[3], ren) if isinstance(v[3], tuple) else v[3])
    if k == "join":
        return ("join", frozenset(_canon(x, ren) for x in v[1]))
    if k == "ite":
        return ("ite", v[1], _canon(v[2], ren), _canon(v[3], ren))
    return v


def _canon_env(e):
    if not isinstance(e, EnvV):
        return e
    ren = {}
    return tuple((k, _canon(e.f[k], ren)) for k in sorted(e.f))


def under(v, assume):
    """resolve ite terms under assumptions {field: bool} about the incoming environment"""
    if not isinstance(v, tuple):
        return v
    if v[0] == "ite" and v[1] in assume:
        return under(v[2] if assume[v[1]] else v[3], assume)
    if v[0] == "join":
        parts = frozenset(under(x, assume) for x in v[1])
        return next(iter(parts)) if len(parts) == 1 else ("join", parts)
    return v


class Builders:
    """effects of the Environment builder methods, derived from env.rs"""

    def __init__(self, syn):
        self.eff = {}
        fns = [f for f in syn.fns if f.get("impl_of") == "Environment" and f["mod"] == MOD + "::env" and f.get("body") and not f.get("derived")]
        if len(fns) < 10:
            raise AnchorError(f"only {len(fns)} methods found in impl Environment")
        self.fields = [n for n, _ in syn.structs[MOD + "::env::Environment"]["fields"]]
        self._fns = {fn["name"]: fn for fn in fns if fn["sig"]["ret"] in ("Environment", "Self")}
        for name in self._fns:
            self._effects_of(name, ())

    def _effects_of(self, name, stack):
        """(params, {field: (kind, deps)}) of a builder; the returned environment is either a struct update of self, or a local copy of
        self (`self.clone()` / another builder applied to self) whose fields are then assigned or mutated and which is returned"""
        if name in self.eff:
            return self.eff[name]
        if name in stack:
            raise AnchorError(f"builder Environment::{name} is recursive")
        fn = self._fns[name]
        params = [src(i["pat"]) for i in fn["sig"]["inputs"]][1:]
        lits = [n for n in walk(fn["body"]) if n.get("k") == "struct" and n["p"] in ("Environment", "Self")]
        effects = None
        if lits:
            for lit in lits:
                rest = lit.get("rest")
                if rest is None or src(strip(rest)) not in ("self",):
                    raise AnchorError(f"builder Environment::{fn['name']}: not of the form `Environment {{ .., ..self.clone() }}`")
                e = {}
                for fname, fv in lit["fields"]:
                    e[fname] = self._classify(fn, fname, fv, params)
                if effects is None:
                    effects = e
                elif {k: v[0] for k, v in effects.items()} != {k: v[0] for k, v in e.items()}:
                    # several literals (if/else): must set the same fields in the same way
                    for k in set(effects) | set(e):
                        if effects.get(k, ("keep",))[0] != e.get(k, ("keep",))[0]:
                            effects[k] = ("mixed",)
        else:
            tail = tail_expr(fn["body"])
            tail = strip(tail) if tail else {}
            if tail.get("k") == "mcall" and src(strip(tail["recv"])) == "self" and tail["m"] in self._fns and tail["m"] != name:
                # the builder ends in another builder applied to self (`self.with_unassigned(<expr>)`): a field the callee sets from its
                # parameters alone is set here from the corresponding arguments, classified in this function's own terms
                cparams, ceff = self._effects_of(tail["m"], stack + (name,))
                effects = {}
                for fname, eff in ceff.items():
                    pdeps = [pn for pn in (eff[1] if len(eff) > 1 and isinstance(eff[1], list) else []) if pn in cparams and cparams.index(pn) < len(tail["args"])]
                    if eff[0] == "assign" and len(pdeps) == 1:
                        effects[fname] = self._classify(fn, fname, tail["args"][cparams.index(pdeps[0])], params)
                    elif eff[0] in ("assign", "update"):
                        deps = set()
                        for pn in pdeps:
                            c_ = self._classify(fn, fname, tail["args"][cparams.index(pn)], params)
                            deps |= set(c_[1]) if len(c_) > 1 and isinstance(c_[1], list) else set()
                        effects[fname] = ("update", sorted(deps))
                    else:
                        effects[fname] = eff
                self.eff[name] = (params, effects)
                return self.eff[name]
            if tail.get("k") != "path":
                raise AnchorError(f"builder Environment::{fn['name']} does not end in a struct update or in a local copy of self")
            var = tail["p"]
            inits = [n for n in walk(fn["body"]) if n.get("k") == "local" and n.get("init") is not None and [p_["name"] for p_ in walk(n["pat"]) if p_.get("k") == "pident"] == [var]]
            if len(inits) != 1:
                raise AnchorError(f"builder Environment::{fn['name']}: `{var}` is bound {len(inits)} times")
            init = strip(inits[0]["init"])
            effects = {}
            if init.get("k") == "path" and init["p"] == "self":
                pass        # (strip removed `.clone()`): a plain copy
            elif init.get("k") == "mcall" and src(strip(init["recv"])) == "self" and init["m"] in self._fns:
                cparams, ceff = self._effects_of(init["m"], stack + (name,))
                for fname, eff in ceff.items():
                    deps = set()
                    for pn in (eff[1] if len(eff) > 1 and isinstance(eff[1], list) else []):
                        if pn in cparams and cparams.index(pn) < len(init["args"]):
                            deps |= {n_["p"] for n_ in walk(init["args"][cparams.index(pn)]) if n_.get("k") == "path" and n_["p"] in params}
                    effects[fname] = (eff[0], sorted(deps)) if eff[0] in ("assign", "update") else eff
            else:
                raise AnchorError(f"builder Environment::{fn['name']}: `{var}` is not a copy of self (`{src(init)[:40]}`)")
            for n in walk(fn["body"]):
                if n.get("k") == "assign":
                    l = strip(n["l"])
                    if l.get("k") == "field" and src(strip(l["base"])) == var:
                        effects[l["name"]] = self._classify(fn, l["name"], n["r"], params)
                if n.get("k") == "mcall":
                    r_ = strip(n["recv"])
                    if r_.get("k") == "field" and src(strip(r_["base"])) == var and n["m"] not in ("clone", "iter", "get", "contains", "contains_key", "len", "is_empty"):
                        deps = set()
                        for a_ in n["args"]:
                            c_ = self._classify(fn, r_["name"], a_, params)
                            deps |= set(c_[1]) if len(c_) > 1 and isinstance(c_[1], list) else set()
                        effects[r_["name"]] = ("update", sorted(deps))
        self.eff[name] = (params, effects)
        return self.eff[name]

    def _classify(self, fn, fname, fv, params):
        """how does the new value of the field depend on self / parameters"""
        fv = strip(fv)
        text = src(fv)
        # follow one level of local definitions
        deps_self = False
        deps_params = set()
        exprs = [fv]
        seen = set()
        while exprs:
            e = exprs.pop()
            for n in walk(e):
                if n.get("k") == "field" and src(strip(n["base"])) == "self":
                    deps_self = True
                if n.get("k") == "path" and n["p"] in params:
                    deps_params.add(n["p"])
                if n.get("k") == "path" and "::" not in n["p"] and n["p"] not in params and n["p"] not in seen and n["p"] != "self":
                    seen.add(n["p"])
                    for m in walk(fn["body"]):
                        if m.get("k") == "local" and m.get("init") is not None and any(p.get("k") == "pident" and p["name"] == n["p"] for p in walk(m["pat"])):
                            exprs.append(m["init"])
                    # mutations of the local: `x.insert(..)`, `x.remove(..)` with parameter arguments
                    for m in walk(fn["body"]):
                        if m.get("k") == "mcall" and src(strip(m["recv"])) == n["p"]:
                            for a in m["args"]:
                                exprs.append(a)
        if fv.get("k") == "lit":
            return ("const", text)
        if not deps_self and len(deps_params) >= 1:
            # plain assignment from a parameter (possibly wrapped: Some(p.clone()))
            return ("assign", sorted(deps_params))
        if deps_self:
            return ("update", sorted(deps_params))
        return ("const", text)


class Interp:
    def __init__(self, syn, builders, fn, analysed, summaries):
        self.syn = syn
        self.B = builders
        self.fn = fn
        self.analysed = analysed   # name -> (index of the env parameter, returns an environment)
        self.summaries = summaries # name -> set of data fields the callee may change
        self.gen_counter = 0
        self.returns = []          # (label, value, node)
        self.callsites = []        # (label, callee, {scoping field: value} where it differs from the incoming one)
        self.label = "-"
        self.problems = []

    def fresh_gen(self):
        self.gen_counter += 1
        return self.gen_counter

    # ---- entry ----
    def run(self):
        fn = self.fn
        envp = None
        for i, inp in enumerate(fn["sig"]["inputs"]):
            if "Environment" in inp["ty"] and inp["pat"].get("k") == "pident":
                envp = inp["pat"]["name"]
        scope = {}
        if envp:
            scope[envp] = EnvV({f: ("in", f) for f in self.B.fields})
        body = fn["body"]
        # per-arm labelling when the body ends in `match &ast.node { .. }`
        v = self.block(body, scope, top=True)
        if v is not None and v != "diverge":
            self.ret(v, body)
        return self.returns

    def ret(self, v, node):
        if isinstance(v, EnvV):
            self.returns.append((self.label, v, node))
        elif v == "diverge" or v == "err":
            pass
        else:
            self.returns.append((self.label, None, node))

    # ---- statements ----
    def block(self, b, scope, top=False):
        """evaluate a block: `let`s are local to it, assignments to outer variables persist in `scope`"""
        if b.get("k") != "block":
            return self.ev(b, scope, top=top)
        inner = dict(scope)
        shadowed = set()
        stmts = b["stmts"]
        result = None
        for i, s in enumerate(stmts):
            last = i == len(stmts) - 1
            k = s.get("k")
            if k == "local":
                v = self.ev(s["init"], inner) if s.get("init") is not None else None
                if v == "diverge":
                    result = "diverge"
                    break
                before = set(inner)
                self.bind(s["pat"], v, inner)
                for n in walk(s["pat"]):
                    if n.get("k") == "pident":
                        shadowed.add(n["name"])
            elif k == "expr":
                if last and not s.get("semi"):
                    result = self.ev(s["e"], inner, top=top)
                    break
                v = self.ev(s["e"], inner)
                if v == "diverge":
                    result = "diverge"
                    break
        for name in list(scope.keys()):
            if name not in shadowed and inner.get(name) is not scope.get(name):
                scope[name] = inner.get(name)
        return result

    def bind(self, pat, v, scope):
        pat_s = pat
        if pat_s.get("k") == "ptype":
            pat_s = pat_s["p"]
        if pat_s.get("k") == "pident":
            scope[pat_s["name"]] = v
            return
        # Some(x) / Ok(x) patterns: transparent
        if pat_s.get("k") == "ptstruct" and pat_s["p"] in ("Some", "Ok") and len(pat_s["elems"]) == 1:
            inner = v.elems if isinstance(v, Coll) else v
            self.bind(pat_s["elems"][0], inner, scope)
            return
        if pat_s.get("k") == "ptuple" and isinstance(v, tuple) and len(v) == 2 and v[0] == "tuple" and len(v[1]) == len(pat_s["elems"]):
            for pe, ve in zip(pat_s["elems"], v[1]):
                self.bind(pe, ve, scope)
            return
        for n in walk(pat_s):
            if n.get("k") == "pident":
                scope[n["name"]] = None

    # ---- expressions ----
    def ev(self, e, scope, top=False):
        if e is None:
            return None
        k = e.get("k")
        if k == "path":
            return scope.get(e["p"]) if "::" not in e["p"] else None
        if k in ("ref",):
            return self.ev(e["e"], scope)
        if k == "unary":
            return self.ev(e["e"], scope) if e["op"] == "*" else None
        if k == "try":
            v = self.ev(e["e"], scope)
            return v
        if k == "block":
            return self.block(e, scope, top=top)
        if k == "unsafe":
            return None
        if k == "return":
            if e.get("e") is not None:
                v = self.ev(e["e"], scope)
                self.ret(v, e)
            return "diverge"
        if k in ("break", "continue"):
            return "diverge"
        if k == "macro":
            if e.get("name") in ("panic", "unreachable", "todo", "unimplemented"):
                return "diverge"
            return None
        if k == "tuple":
            return ("tuple", [self.ev(x, scope) for x in e["elems"]])
        if k == "field":
            base = self.ev(e["base"], scope)
            if isinstance(base, EnvV) and e["name"] in base.f:
                return FieldV(base.f[e["name"]])
            return None
        if k == "struct":
            if e["p"] in ("Environment",):
                base = self.ev(e["rest"], scope) if e.get("rest") else None
                if not isinstance(base, EnvV):
                    base = EnvV({f: ("unknown", "struct literal without analysable base") for f in self.B.fields})
                for fname, fv in e["fields"]:
                    v = self.ev(fv, scope)
                    if isinstance(v, FieldV):
                        base = base.set(fname, v.v)
                    elif strip(fv).get("k") == "lit":
                        base = base.set(fname, ("const", src(strip(fv))))
                    else:
                        base = base.set(fname, ("arg", src(strip(fv))[:60]))
                return base
            for fname, fv in e["fields"]:
                self.ev(fv, scope)
            return None
        if k == "call":
            return self.call(e, scope)
        if k == "mcall":
            return self.mcall(e, scope)
        if k == "if":
            return self.ev_if(e, scope)
        if k == "match":
            return self.ev_match(e, scope, top=top)
        if k == "for":
            self.ev(e["iter"], scope)
            self.loop(e["body"], scope, e["pat"])
            return None
        if k == "while":
            self.loop(e["body"], scope, None)
            return None
        if k == "loop":
            self.loop(e["body"], scope, None)
            return None
        if k == "assign":
            v = self.ev(e["r"], scope)
            l = strip(e["l"])
            if l.get("k") == "path" and "::" not in l["p"]:
                scope[l["p"]] = v
            return None
        if k == "closure":
            return ("closure", e, dict(scope))
        if k == "let":
            return None
        if k in ("binary", "lit", "cast", "index", "range", "array", "repeat"):
            for key in ("l", "r", "e", "i"):
                if isinstance(e.get(key), dict):
                    self.ev(e[key], scope)
            return None
        return None

    def loop(self, body, scope, pat):
        """the body runs zero or more times: evaluate it twice, joining what it assigns with the state before"""
        for _ in range(2):
            inner = dict(scope)
            if pat is not None:
                for n in walk(pat):
                    if n.get("k") == "pident":
                        inner[n["name"]] = None
            self.block(body, inner)
            for name in list(scope.keys()):
                if inner.get(name) is not scope.get(name):
                    scope[name] = join_env(scope.get(name), inner.get(name))

    def block_assigning(self, b, scope):
        """evaluate a branch on a copy of the scope: returns (value, scope after)"""
        inner = dict(scope)
        v = self.block(b, inner)
        return v, inner

    def ev_if(self, e, scope):
        c = e["c"]
        cond_field = None
        cv = self.ev(c, dict(scope)) if c.get("k") in ("field", "path", "unary") else None
        neg = False
        c0 = c
        if c.get("k") == "unary" and c["op"] == "!":
            neg = True
            cv = self.ev(c["e"], dict(scope))
        if isinstance(cv, FieldV) and cv.v[0] == "in":
            cond_field = cv.v[1]
        then_scope = dict(scope)
        self._cond_bind(c, then_scope, scope)
        tv, ts = self.block_assigning(e["then"], then_scope)
        if e.get("else") is not None:
            ev_, es = self.block_assigning(e["else"], dict(scope))
        else:
            ev_, es = None, dict(scope)
        # merge assignments to pre-existing variables
        for name in list(scope.keys()):
            a = ts.get(name) if tv != "diverge" else None
            b = es.get(name) if ev_ != "diverge" else None
            if tv == "diverge" and ev_ == "diverge":
                continue
            if tv == "diverge":
                scope[name] = es.get(name)
            elif ev_ == "diverge":
                scope[name] = ts.get(name)
            elif a is not scope.get(name) or b is not scope.get(name):
                scope[name] = join_env(a, b) if (a is not None or b is not None) else None
        if tv == "diverge" and ev_ == "diverge":
            return "diverge"
        if tv == "diverge":
            return ev_
        if ev_ == "diverge":
            return tv
        if cond_field and isinstance(tv, EnvV) and isinstance(ev_, EnvV):
            a, b = (ev_, tv) if neg else (tv, ev_)
            return EnvV({k: (a.f[k] if a.f[k] == b.f[k] else ("ite", cond_field, a.f[k], b.f[k])) for k in a.f})
        if isinstance(tv, (EnvV, Coll, FieldV)) or isinstance(ev_, (EnvV, Coll, FieldV)):
            return join_env(tv, ev_)
        return tv if tv is not None else ev_

    def _cond_bind(self, c, then_scope, scope):
        if c.get("k") == "let":
            v = self.ev(c["e"], scope)
            self.bind(c["pat"], v, then_scope)
        elif c.get("k") == "binary" and c["op"] == "&&":
            self._cond_bind(c["l"], then_scope, scope)
            self._cond_bind(c["r"], then_scope, then_scope)
        else:
            self.ev(c, scope)

    def ev_match(self, e, scope, top=False):
        sv = self.ev(e["e"], scope)
        is_dispatch = top and is_node_scrutinee(e["e"])
        result = None
        any_value = False
        all_diverge = True
        arm_scopes = []
        for a in e["arms"]:
            ascope = dict(scope)
            self.bind_arm(a["pat"], sv, ascope)
            if a.get("guard"):
                self.ev(a["guard"], ascope)
            old = self.label
            if is_dispatch:
                self.label = " | ".join(sorted({_head(alt) for alt in pat_alternatives(a["pat"])})) + (" if .." if a.get("guard") else "")
                self.label = self.label + _arm_suffix(a["pat"])
            v, asc = self.block_assigning(a["body"], ascope)
            if is_dispatch:
                if v != "diverge":
                    self.ret(v, a["body"])
                self.label = old
                continue
            self.label = old
            if v == "diverge":
                continue
            all_diverge = False
            arm_scopes.append(asc)
            if isinstance(v, (EnvV, Coll, FieldV)):
                result = join_env(result, v) if any_value else v
                any_value = True
            elif result is None and not any_value:
                result = v
        if is_dispatch:
            return "diverge"   # every arm's value was recorded as a return
        for name in list(scope.keys()):
            vals = [s.get(name) for s in arm_scopes]
            if any(v is not scope.get(name) for v in vals):
                j = None
                for v in vals:
                    j = join_env(j, v)
                scope[name] = j
        if all_diverge and e["arms"]:
            return "diverge"
        return result

    def bind_arm(self, pat, sv, scope):
        for alt in pat_alternatives(pat):
            if alt.get("k") == "ptstruct" and alt["p"] in ("Some", "Ok") and len(alt["elems"]) == 1:
                inner = sv.elems if isinstance(sv, Coll) else sv
                self.bind(alt["elems"][0], inner, scope)
            else:
                for n in walk(alt):
                    if n.get("k") == "pident" and not n["name"][:1].isupper():
                        scope[n["name"]] = None

    def call(self, e, scope):
        f = e["f"]
        args = e["args"]
        if f.get("k") == "path":
            name = f["p"].split("::")[-1]
            if f["p"] in ("Ok", "Some", "Box::from", "Box::new") and len(args) == 1:
                return self.ev(args[0], scope)
            if f["p"] == "Err":
                for a in args:
                    self.ev(a, scope)
                return "diverge"   # an error value is never a returned environment
            if name in self.analysed and len(args) > self.analysed[name][0]:
                idx, returns_env = self.analysed[name]
                for i, a in enumerate(args):
                    if i != idx:
                        self.ev(a, scope)
                ev_ = self.ev(args[idx], scope)
                if not returns_env:
                    self.callsites.append((self.label, name, {f_: ev_.f[f_] for f_ in SCOPING if ev_.f[f_] != ("in", f_)} if isinstance(ev_, EnvV) else None))
                    return None
                if not isinstance(ev_, EnvV):
                    self.callsites.append((self.label, name, None))
                    return EnvV({f_: ("unknown", f"argument of {name} not analysable") for f_ in self.B.fields})
                self.callsites.append((self.label, name, {f_: ev_.f[f_] for f_ in SCOPING if ev_.f[f_] != ("in", f_)}))
                summ = self.summaries.get(name)
                if summ is None:   # blanket assumption (dispatch entry points, functions outside the fragment)
                    g = self.fresh_gen()
                    out = ev_
                    for d in DATA:
                        out = out.set(d, ("gen", g))
                    return out
                if summ == "never":
                    return "diverge"
                gens = {}
                return EnvV({f_: self.subst(summ.f[f_], ev_, gens) for f_ in summ.f})
        for a in args:
            self.ev(a, scope)
        return None

    def subst(self, v, arg, gens):
        """instantiate a callee's summary term with the argument environment"""
        k = v[0]
        if k == "in":
            return arg.f[v[1]]
        if k == "gen":
            if isinstance(v[1], tuple):
                # a widened term: mentions of the callee's input become "changed" relative to the argument
                return ("gen", ("w", tuple(sorted(set(v[1][1])))))
            if v[1] not in gens:
                gens[v[1]] = self.fresh_gen()
            return ("gen", gens[v[1]])
        if k == "upd":
            return ("upd", v[1], self.subst(v[2], arg, gens), self.subst(v[3], arg, gens) if isinstance(v[3], tuple) else v[3])
        if k == "join":
            parts = frozenset(self.subst(x, arg, gens) for x in v[1])
            flat = set()
            for p_ in parts:
                if p_[0] == "join":
                    flat |= set(p_[1])
                else:
                    flat.add(p_)
            return next(iter(flat)) if len(flat) == 1 else ("join", frozenset(flat))
        if k == "ite":
            c = arg.f[v[1]]
            a, b = self.subst(v[2], arg, gens), self.subst(v[3], arg, gens)
            if a == b:
                return a
            if c[0] == "in":
                return ("ite", c[1], a, b)
            if c == ("const", "true"):
                return a
            if c == ("const", "false"):
                return b
            return join_val(a, b)
        return v

    def mcall(self, e, scope):
        m = e["m"]
        recv = self.ev(e["recv"], scope)
        args = e["args"]
        if isinstance(recv, EnvV):
            if m in ("clone", "to_owned", "borrow", "as_ref", "deref"):
                return recv
            if m in self.B.eff:
                params, eff = self.B.eff[m]
                argv = [self.ev(a, scope) for a in args]
                out = recv
                for fname, kind in eff.items():
                    if kind[0] == "const":
                        out = out.set(fname, ("const", kind[1]))
                    elif kind[0] == "assign":
                        # value of the (single) parameter it is assigned from
                        pi = params.index(kind[1][0]) if kind[1][0] in params else None
                        av = argv[pi] if pi is not None and pi < len(argv) else None
                        if isinstance(av, FieldV):
                            out = out.set(fname, av.v)
                        elif pi is not None and pi < len(args) and strip(args[pi]).get("k") == "lit":
                            out = out.set(fname, ("const", src(strip(args[pi]))))
                        else:
                            out = out.set(fname, ("arg", src(strip(args[pi]))[:60] if pi is not None and pi < len(args) else "?"))
                    elif kind[0] == "update":
                        av = None
                        for p in kind[1]:
                            pi = params.index(p)
                            if pi < len(argv):
                                a = argv[pi]
                                if isinstance(a, EnvV):
                                    av = a.f[fname]
                                elif isinstance(a, FieldV):
                                    av = a.v
                                else:
                                    av = ("arg", src(strip(args[pi]))[:60])
                        out = out.set(fname, ("upd", m, recv.f[fname], av if av is not None else ("arg", "-")))
                    else:
                        out = out.set(fname, ("unknown", f"builder {m}"))
                return out
            for a in args:
                self.ev(a, scope)
            return None
        if isinstance(recv, FieldV):
            if m in ("clone", "to_owned", "cloned", "as_ref"):
                return recv
            for a in args:
                self.ev(a, scope)
            return None
        if isinstance(recv, Coll):
            if m in ("into_iter", "iter", "clone", "cloned", "into_iter"):
                return recv
            if m == "reduce" and args and strip(args[0]).get("k") == "closure":
                cl = strip(args[0])
                cs = dict(scope)
                names = [p["name"] for q in cl["params"] for p in walk(q) if p.get("k") == "pident"]
                for n in names:
                    cs[n] = recv.elems
                v = self.ev(cl["body"], cs)
                return Coll(v if isinstance(v, EnvV) else recv.elems)
            if m == "fold" and len(args) == 2 and strip(args[1]).get("k") == "closure":
                return self.fold(args[0], strip(args[1]), recv.elems, scope)
            if m in ("last", "first", "pop", "next", "unwrap", "unwrap_or", "unwrap_or_else", "unwrap_or_default"):
                return recv.elems if m.startswith("unwrap") else Coll(recv.elems)
            if m == "push":
                return None
            return None
        # push on a plain (so far unknown) local that is going to hold environments
        r0 = strip(e["recv"])
        if m == "push" and r0.get("k") == "path" and len(args) == 1:
            v = self.ev(args[0], scope)
            if isinstance(v, EnvV):
                cur = scope.get(r0["p"])
                scope[r0["p"]] = Coll(join_env(cur.elems if isinstance(cur, Coll) else None, v))
            return None
        if m == "fold" and len(args) == 2 and strip(args[1]).get("k") == "closure":
            return self.fold(args[0], strip(args[1]), None, scope)
        if m in ("map", "and_then", "map_or", "map_or_else", "for_each", "filter", "flat_map", "any", "all", "filter_map", "ok_or_else", "map_err", "unwrap_or_else"):
            for a in args:
                a1 = strip(a)
                if a1.get("k") == "closure":
                    cs = dict(scope)
                    for q in a1["params"]:
                        for p in walk(q):
                            if p.get("k") == "pident":
                                cs[p["name"]] = None
                    self.ev(a1["body"], cs)
                else:
                    self.ev(a, scope)
            return None
        for a in args:
            self.ev(a, scope)
        return None

    def fold(self, init, cl, elem, scope):
        acc = self.ev(init, scope)
        names = []
        for q in cl["params"]:
            names.append([p["name"] for p in walk(q) if p.get("k") == "pident"])
        cur = acc
        for _ in range(2):
            cs = dict(scope)
            if names:
                for n in names[0]:
                    cs[n] = cur
            for grp in names[1:]:
                for n in grp:
                    cs[n] = elem
            v = self.ev(cl["body"], cs)
            if isinstance(v, EnvV) and isinstance(cur, EnvV):
                cur = join_env(cur, v)
            elif isinstance(v, EnvV):
                cur = v
        return cur


def _head(alt):
    if alt.get("k") in ("pstruct", "ptstruct", "ppath"):
        return alt["p"].split("::")[-1]
    if alt.get("k") == "pwild":
        return "_"
    if alt.get("k") == "pident":
        return alt["name"] if alt["name"][:1].isupper() else "_"
    return alt.get("k")


def _arm_suffix(pat):
    """distinguish arms on the same variant by the sub-pattern that differs (e.g. IfElse{el: Some})"""
    for alt in pat_alternatives(pat):
        if alt.get("k") == "pstruct":
            for fname, fp in alt["fields"]:
                if fp.get("k") == "ptstruct" and fp["p"] in ("Some",):
                    return f"[{fname}:Some]"
    return ""


_CACHE = {}
CALLSITES = {}


def analyse(facts):
    """-> (dict fn qual -> list of (label, EnvV|None, node), builders, fns, summaries)"""
    key = id(facts)
    if key in _CACHE:
        return _CACHE[key]
    syn = facts.syn
    B = Builders(syn)
    fns = []
    analysed = {}
    for fn in syn.fns:
        if not (fn["mod"] == MOD or fn["mod"].startswith(MOD + "::")) or not fn.get("body") or fn.get("derived"):
            continue
        if fn["mod"] == MOD + "::env":
            continue
        envp = [i for i, inp in enumerate(fn["sig"]["inputs"]) if "Environment" in inp["ty"]]
        if len(envp) != 1:
            continue
        returns_env = fn["sig"]["ret"].replace(" ", "") in ("Constrained", "Constrained<Environment>")
        analysed[fn["name"]] = (envp[0], returns_env)
        if returns_env:
            fns.append(fn)
    # Summary terms. `generate` / `gen_vec` (the recursive dispatch) always stay under the blanket assumption "scoping fields
    # unchanged, data fields arbitrary". For the other functions the summaries are the least solution reached from
    # "returns its argument" by re-evaluating the bodies with the previous round's terms at call sites; a solution is an
    # inductive invariant (induction over the depth of the call tree of a terminating execution). Terms are widened to a fresh
    # Gen when they get deep, so the iteration stabilises.
    BLANKET = ("generate", "gen_vec")
    ident = EnvV({f: ("in", f) for f in B.fields})
    summaries = {fn["name"]: ident for fn in fns if fn["name"] not in BLANKET}
    out = {}
    stable = False
    for rnd in range(8):
        new_summ = {}
        for fn in fns:
            it = Interp(syn, B, fn, analysed, summaries)
            rets = it.run()
            out[fn["qual"]] = rets
            CALLSITES[fn["qual"]] = it.callsites
            if fn["name"] in BLANKET:
                continue
            j = None
            bad = False
            for label, v, node in rets:
                if v is None:
                    bad = True
                else:
                    j = join_env(j, v)
            if bad:
                new_summ[fn["name"]] = None    # blanket for functions we cannot evaluate
            elif j is None:
                new_summ[fn["name"]] = "never"
            else:
                new_summ[fn["name"]] = EnvV({k: widen(v) for k, v in j.f.items()})
        same = all(_canon_env(new_summ.get(k)) == _canon_env(summaries.get(k)) for k in set(new_summ) | set(summaries))
        summaries = {k: v for k, v in new_summ.items() if v is not None}
        for k, v in new_summ.items():
            if v is None:
                summaries.pop(k, None)
        if same:
            stable = True
            break
    if not stable:
        raise AnchorError("environment summaries did not stabilise")
    _CACHE[key] = (out, B, fns, summaries)
    return _CACHE[key]


def check_scoping(chk, facts, rule, fields=None):
    """every returned environment keeps the given scoping fields"""
    fields = fields or SCOPING
    res, B, fns, _ = analyse(facts)
    n = 0
    for fn in fns:
        loc = facts.loc_of(fn)
        rets = res[fn["qual"]]
        seen = {}
        for label, v, node in rets:
            for f in fields:
                n += 1
                if v is None:
                    ok, what = False, "the returned environment could not be evaluated (expression outside the analysable fragment)"
                else:
                    ok = v.f[f] == ("in", f)
                    what = render(v.f[f])
                k = f"{fn['qual']}|{label}|{f}"
                seen.setdefault(k, []).append((ok, what))
        for k, lst in seen.items():
            ok = all(o for o, _ in lst)
            fq, label, f = k.split("|")
            bad = [w for o, w in lst if not o]
            chk.ob(rule, k, ok, f"{fq} [{label}]: `{f}` of the returned environment is " + ("the incoming one" if ok else
                   f"{bad[0]} - the `{f}` set up for a sub-construct escapes to what follows"), loc)
    chk.floor(rule, n, 60 * len(fields) // len(fields), "returned-environment field values")
    return res


def data_fields(facts):
    res, B, fns, summaries = analyse(facts)
    return res, fns, summaries


def _labels_match(pattern, fq, label):
    pf, pl = pattern.split("|", 1)
    return fq.endswith(pf) and (pl == "*" or pl == label)


def _replace_terms(v, f, exc_terms):
    """replace reviewed exception terms (by their rendering) with the incoming value, then simplify joins"""
    if not isinstance(v, tuple):
        return v
    if render(v) in exc_terms:
        return ("in", f)
    if v[0] == "join":
        parts = frozenset(_replace_terms(x, f, exc_terms) for x in v[1])
        return next(iter(parts)) if len(parts) == 1 else ("join", parts)
    if v[0] == "ite":
        a, b = _replace_terms(v[2], f, exc_terms), _replace_terms(v[3], f, exc_terms)
        return a if a == b else ("ite", v[1], a, b)
    return v


def check_scoping(chk, facts, rule, fields=None):
    """every returned environment keeps the given scoping fields (reviewed exception *terms* in tables/env_flow.json:
    a reviewed term is accepted wherever it propagates to, anything else is reported where it arises)"""
    fields = fields or SCOPING
    table = load_table("env_flow.json")
    exc = {}
    for e in table["scoping_exceptions"]:
        exc.setdefault(e["field"], {})[e["term"]] = e
    res, B, fns, _ = analyse(facts)
    n = 0
    used = set()
    for fn in fns:
        loc = facts.loc_of(fn)
        rets = res[fn["qual"]]
        seen = {}
        for label, v, node in rets:
            for f in fields:
                n += 1
                if v is None:
                    ok, what, via = False, "not evaluable (the returned expression left the analysable fragment)", None
                else:
                    val = v.f[f]
                    ok = val == ("in", f)
                    via = None
                    if not ok and f in exc:
                        nv = _replace_terms(val, f, set(exc[f]))
                        if nv == ("in", f):
                            ok, via = True, [t for t in exc[f] if t in render(val)]
                    what = render(val)
                seen.setdefault((fn["qual"], label, f), []).append((ok, what, via))
        for (fq, label, f), lst in seen.items():
            ok = all(o for o, _, _ in lst)
            bad = [w for o, w, _ in lst if not o]
            vias = [v for _, _, v in lst if v]
            k = f"{fq}|{label}|{f}"
            if ok and vias:
                e = exc[f][vias[0][0]]
                if fq.endswith(e["origin"]):
                    used.add((f, vias[0][0]))
                chk.ob(rule, k, True, f"{fq} [{label}]: `{f}` is the incoming one except for the reviewed term `{vias[0][0]}` from {e['origin']}: {e['reason']}", loc)
                continue
            chk.ob(rule, k, ok, f"{fq} [{label}]: `{f}` of the returned environment is " + ("the incoming one" if ok else
                   f"{bad[0]} - what was set up for a sub-construct escapes to the code that follows"), loc)
    chk.floor(rule, n, 60, "returned-environment field values")
    return res


def check_vars(chk, facts, rule):
    """scope-closing constructs return the incoming `vars`/`var_mapping`; every other returning arm must be a reviewed definer"""
    table = load_table("env_flow.json")
    res, B, fns, _ = analyse(facts)
    n = 0
    for fn in fns:
        loc = facts.loc_of(fn)
        by_label = {}
        for label, v, node in res[fn["qual"]]:
            by_label.setdefault(label, []).append(v)
        for label, vals in by_label.items():
            n += 1
            key = f"{fn['qual']}|{label}"
            closer = [c for c in table["closers"] if _labels_match(c["key"], fn["qual"], label)]
            definer = [c for c in table["definers"] if _labels_match(c["key"], fn["qual"], label)]
            changed = set()
            desc = []
            for v in vals:
                if v is None:
                    changed |= {"vars", "var_mapping"}
                    desc.append("not evaluable")
                    continue
                for d in ("vars", "var_mapping"):
                    val = under(v.f[d], {"is_def_mode": False, "is_destruct_mode": False})
                    if val != ("in", d):
                        changed.add(d)
                        desc.append(f"{d} = {render(val)}")
            if closer:
                allowed = set(closer[0].get("may_change", []))
                bad = changed - allowed
                chk.ob(rule, f"closer:{key}", not bad,
                       f"{fn['qual']} [{label}] closes its scope: returns the incoming variables" + (f" (except {sorted(allowed)}: {closer[0]['reason']})" if allowed else "") if not bad else
                       f"{fn['qual']} [{label}] must not let definitions made inside it escape, but returns {'; '.join(desc[:3])}", loc)
            elif definer:
                chk.ob(rule, f"definer:{key}", True, f"{fn['qual']} [{label}] may extend the scope ({definer[0]['reason']})", loc)
            else:
                chk.ob(rule, f"unreviewed:{key}", not changed,
                       f"{fn['qual']} [{label}] returns the incoming variables" if not changed else
                       f"{fn['qual']} [{label}] is not a reviewed definition carrier but returns {'; '.join(desc[:3])}", loc)
    chk.floor(rule, n, 50, "returning arms of generator functions")


def _formula(v, atoms):
    """set-algebra term -> python predicate over a membership valuation"""
    k = v[0]
    if k == "in":
        return lambda a: a["I"]
    if k == "gen":
        name = f"G{v[1]}"
        atoms.add(name)
        return lambda a, name=name: a[name]
    if k == "upd" and v[1] in ("union", "intersection"):
        l = _formula(v[2], atoms)
        r = _formula(v[3], atoms) if isinstance(v[3], tuple) else None
        if r is None:
            return None
        if l is None:
            return None
        if v[1] == "union":
            return lambda a: l(a) or r(a)
        return lambda a: l(a) and r(a)
    return None


def check_unassigned_join(chk, facts, rule):
    """after a branching construct a field is still unassigned iff it was before and is unassigned after at least one branch"""
    import itertools
    res, B, fns, _ = analyse(facts)
    targets = [("control_flow::gen_flow", "IfElse[el:Some]", 2), ("control_flow::constrain_cases", "-", 1)]
    for fsuffix, label, nbranches in targets:
        fn = [f for f in fns if f["qual"].endswith(fsuffix)]
        if len(fn) != 1:
            chk.anchor_fail(rule, f"{fsuffix} not found")
            continue
        fn = fn[0]
        loc = facts.loc_of(fn)
        vals = [v for l, v, n in res[fn["qual"]] if l == label]
        if not vals:
            chk.anchor_fail(rule, f"{fsuffix} [{label}] returns nothing analysable")
            continue
        for v in vals:
            if v is None:
                chk.ob(rule, f"{fsuffix}|{label}", False, f"{fsuffix} [{label}]: returned environment not evaluable", loc)
                continue
            term = v.f["unassigned"]

            def expand(t, depth=0):
                """alternatives of a term with joins nested inside (a loop-carried accumulator `acc = acc.union(x)` / `Some(x)`): the
                claim has to hold for each of them"""
                if not isinstance(t, tuple) or depth > 6:
                    return [t]
                if t and t[0] == "join":
                    out_ = []
                    for a_ in t[1]:
                        out_ += expand(a_, depth + 1)
                    return out_
                outs = [()]
                for x in t:
                    xs = expand(x, depth + 1) if isinstance(x, tuple) else [x]
                    outs = [o + (y,) for o in outs for y in xs]
                    if len(outs) > 64:
                        return [t]
                return outs
            alts = expand(term)
            ok_all = True
            why = ""
            for alt in alts:
                if alt == ("in", "unassigned"):
                    continue  # no branch at all (empty case list)
                atoms = set()
                f = _formula(alt, atoms)
                if f is None:
                    ok_all, why = False, f"`{render(alt)}` is not a union/intersection term"
                    break
                names = sorted(atoms)
                if not names:
                    ok_all, why = False, f"`{render(alt)}` does not depend on any branch"
                    break
                for bits in itertools.product([False, True], repeat=len(names) + 1):
                    a = dict(zip(["I"] + names, bits))
                    if any(a[g] and not a["I"] for g in names):
                        continue  # a branch cannot un-assign: G subset of I
                    want = a["I"] and any(a[g] for g in names)
                    if f(a) != want:
                        ok_all, why = False, f"`{render(alt)}` differs from in & (branch1 | branch2 ..) for {a}"
                        break
                if not ok_all:
                    break
                if len(names) < nbranches:
                    ok_all, why = False, f"`{render(alt)}` looks at {len(names)} branch(es) instead of {nbranches}"
                    break
            chk.ob(rule, f"{fsuffix}|{label}|unassigned", ok_all,
                   f"{fsuffix} [{label}]: unassigned-after = unassigned-before & (unassigned after some branch)" if ok_all else
                   f"{fsuffix} [{label}]: {why} - a field assigned in only one branch may count as assigned", loc)


def check_unassigned_closed(chk, facts, rule):
    """constructs whose body may run zero times (loops, single-branch if, lambdas, nested functions) must not mark fields assigned"""
    res, B, fns, _ = analyse(facts)
    must_keep = ["control_flow::gen_flow|IfElse", "control_flow::gen_flow|For", "control_flow::gen_flow|While",
                 "definition::gen_def|FunDef", "expression::gen_expr|AnonFun"]
    for key in must_keep:
        fs, label = key.split("|")
        fn = [f for f in fns if f["qual"].endswith(fs)]
        if len(fn) != 1:
            chk.anchor_fail(rule, f"{fs} not found")
            continue
        vals = [v for l, v, n in res[fn[0]["qual"]] if l == label]
        if not vals:
            chk.ob(rule, f"keep-unassigned:{key}", False, f"{fs} [{label}]: arm not found - cannot decide", facts.loc_of(fn[0]))
            continue
        ok = all(v is not None and v.f["unassigned"] == ("in", "unassigned") for v in vals)
        chk.ob(rule, f"keep-unassigned:{key}", ok, f"{fs} [{label}] leaves the unassigned set as it was (its body may not run)" if ok else
               f"{fs} [{label}] returns unassigned = {render(vals[0].f['unassigned']) if vals[0] is not None else '?'}: an assignment in a body that may not run counts as definite", facts.loc_of(fn[0]))


def check_call_envs(chk, facts, rule, fields=None):
    """the environment handed to every sub-construct differs from the incoming one only in the reviewed ways
    (tables/env_flow.json `argument_envs`): e.g. the caught set is enlarged only for the expression a `handle` guards and for a
    function body, `in_loop` is set only for loop bodies."""
    fields = fields or SCOPING
    table = load_table("env_flow.json")
    allowed = {}
    for e in table["argument_envs"]:
        allowed.setdefault((e["fn"], e["label"], e["callee"]), []).append(e)
    res, B, fns, _ = analyse(facts)
    n = 0
    for fn in fns:
        loc = facts.loc_of(fn)
        seen = {}
        for label, callee, diffs in CALLSITES.get(fn["qual"], []):
            n += 1
            if diffs is None:
                seen.setdefault((label, callee, "?", "argument not evaluable"), 0)
                continue
            for f, v in diffs.items():
                if f in fields:
                    seen.setdefault((label, callee, f, render(v)), 0)
        short = fn["qual"].replace(MOD + "::", "")
        for (label, callee, f, val) in seen:
            cands = allowed.get((short, label, callee), [])
            if not cands and not any(k_[0] == short for k_ in allowed):
                # a private helper that one function of the module calls, and that has no entries of its own: the code of some arms of that
                # function moved here - what it hands to `callee` is reviewed where it came from (any arm of the owner)
                from .common import syn_owner
                own = (syn_owner(facts.syn, fn) or "").replace(MOD + "::", "")
                if own and own != short:
                    cands = [c for (f_, l_, c_), cs in allowed.items() if f_ == own and c_ == callee for c in cs]
            ok = any(c["field"] == f and c["value"] == val for c in cands)
            why = next((c["reason"] for c in cands if c["field"] == f and c["value"] == val), "")
            chk.ob(rule, f"arg:{short}|{label}|{callee}|{f}={val}", ok,
                   f"{short} [{label}] calls {callee} with `{f}` = {val}" + (f" (reviewed: {why})" if ok else
                   " - an unreviewed change of the scoping state handed to a sub-construct"), loc)
    chk.floor(rule, n, 80, "analysed call sites")
