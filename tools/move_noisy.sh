#!/bin/bash
# usage: tools/move_noisy.sh <selftest logs...>
# A behaviour-preserving patch that still trips a rule is an OPEN false alarm of the machinery. Such patches are kept, but not among
# the must-stay-silent fixtures: they are moved to fixtures/noisy/ and listed in fixtures/noisy/README.md with the rule that fires.
mkdir -p /verif/fixtures/noisy
grep -h "^FAIL silent" "$@" | awk '{print $4}' | sort -u | while read f; do
  [ -e /verif/fixtures/silent/$f ] && git -C /verif mv -f fixtures/silent/$f fixtures/noisy/$f 2>/dev/null || mv /verif/fixtures/silent/$f /verif/fixtures/noisy/$f 2>/dev/null
done
{
echo "# Behaviour-preserving patches that still trip a rule (open false alarms)"
echo
echo "Each patch here was written by a sub-agent as a refactoring that cannot change behaviour (it compiles, keeps the pinned suite green and"
echo "gives byte-identical output on all bundled samples), and at least one check still reports it. They are not part of the must-stay-silent"
echo "suite (fixtures/silent); they document where the rules are still tied to how the code is written. Rule and message as of the last run:"
echo
echo "| patch | check | what fires |"
echo "|---|---|---|"
grep -h "^FAIL silent" "$@" | sed 's/^FAIL silent  *//' | awk '{c=$1; f=$2; $1="";$2="";$3=""; print "| " f " | " c " |" substr($0,1,230) " |"}' | sort -u
} > /verif/fixtures/noisy/README.md
