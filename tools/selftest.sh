#!/bin/bash
# usage: [SHARD=i/n] [FIRE_ONLY=1] tools/selftest.sh [name-filter]      (SHARD: only every n-th case, starting with the i-th - run n of them in parallel)
# Tests the checks both ways against committed fixtures, in a scratch worktree of /repo HEAD (removed afterwards):
#   fixtures/fire/<Cxx[+Cyy..]>__<what>.diff    every listed check must report a violation (exit 1 with a VIOLATION line)
#   fixtures/silent/<Cxx[+Cyy..]>__<what>.diff  every listed check must stay silent (exit 0); the prefix ALL means all twenty checks
#                                               (ALL__refactor_Cxx_N.diff: behaviour-preserving refactorings written by sub-agents)
#   seeded/<Cxx>_<V>/patch.diff                 the check of Cxx must report a violation
# Each fixture compiles and keeps the pinned test-suite green (confirmed when it was written). Prints one line per case; exit 1 if any case fails.
WT=$(mktemp -d /tmp/selftest_wt.XXXXXX)      # one worktree per invocation: several selftests may run at the same time
EV=$(mktemp -d /tmp/selftest_evidence.XXXXXX)
F=${1:-}
rmdir $WT
git -C /repo worktree add -f --detach $WT HEAD >/dev/null 2>&1 || { echo "cannot create worktree"; exit 3; }
bad=0; n=0; case_no=0
SH_I=${SHARD%%/*}; SH_N=${SHARD##*/}
run_case() { # kind patch props...
  kind=$1; patch=$2; shift 2
  case_no=$((case_no+1))
  if [ -n "${SHARD:-}" ] && [ $((case_no % SH_N)) -ne $((SH_I % SH_N)) ]; then return; fi
  git -C $WT checkout -q -- . && git -C $WT clean -fdq
  if ! git -C $WT apply "$patch" 2>/dev/null; then echo "SKIP (does not apply)  $(basename $(dirname $patch))/$(basename $patch)"; bad=1; return; fi
  for pid in "$@"; do
    n=$((n+1))
    out=$(MAMBA_REPO=$WT VERIF_EVIDENCE_DIR=$EV /verif/check $pid --tier quick 2>&1); rc=$?
    viol=$(echo "$out" | grep -c "^VIOLATION")
    if [ $kind = fire ]; then
      if [ $rc -eq 1 ] && [ $viol -ge 1 ]; then echo "ok   fire    $pid  $(basename $patch)  [$(echo "$out" | grep '^VIOLATION' | head -1 | sed 's|.*/||; s|\.json||')]";
      else echo "FAIL fire    $pid  $(basename $patch)  (rc=$rc, $viol violations)"; bad=1; fi
    else
      if [ $rc -eq 0 ] && [ $viol -eq 0 ]; then echo "ok   silent  $pid  $(basename $patch)";
      else echo "FAIL silent  $pid  $(basename $patch)  (rc=$rc): $(echo "$out" | grep -A1 '^VIOLATION' | head -2 | tail -1 | cut -c1-160)"; bad=1; fi
    fi
  done
}
for kind in fire ${FIRE_ONLY:+skip-}silent; do
  [ "$kind" = "skip-silent" ] && continue      # FIRE_ONLY=1: only the must-fire side (fixtures/fire and seeded/)
  for p in /verif/fixtures/$kind/*.diff; do
    [ -e "$p" ] || continue
    b=$(basename $p); case "$b" in *"$F"*) ;; *) continue;; esac
    props=$(echo "${b%%__*}" | tr '+' ' ')
    [ "$props" = "ALL" ] && props="C01 C02 C03 C04 C05 C06 C07 C08 C09 C10 C11 C12 C13 C14 C15 C16 C17 C18 C19 C20"
    run_case $kind $p $props
  done
done
for d in /verif/seeded/*/; do
  s=$(basename $d); case "$s" in *"$F"*) ;; *) continue;; esac
  run_case fire $d/patch.diff ${s%%_*}
done
git -C /repo worktree remove --force $WT >/dev/null 2>&1
rm -rf $EV
echo "selftest: $n check runs, $([ $bad -eq 0 ] && echo all as expected || echo SOME NOT AS EXPECTED)"
exit $bad
