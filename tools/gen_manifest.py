#!/usr/bin/env python3
"""Writes /verif/MANIFEST.json from the table below (kept in one place so that it is always valid)."""
import json, os
HERE = os.path.dirname(os.path.dirname(os.path.abspath(__file__)))
ALL = ["C%02d" % i for i in range(1, 21)]

# what later rounds added to the rule set of a property (DESIGN.md R1.4, R1.5b, R1.7)
ADDENDA = {
 "C01": " Added since: the table `under which desugaring state is which child converted` (138 reviewed rows, resolved through lets and private helpers), State setters folded over a symbolic state, the pairing-by-position obligations of the project pipeline (each translation is written to its own file).",
 "C03": " Added since: invariants behind reviewed reasons are checked, not asserted (StringName::to_py yields a type, branch() after branch_point()); the acyclicity validation covers the final class table, uses the key of the lookup, and rejects a type parameter as parent; lookup recursions are classified by the edges they follow.",
 "C04": " Added since: accumulators of the assignability functions are monotone, no truncating adapter before a per-element check, unify_type's accept condition and direction (shared with C05/C06).",
 "C05": " Added since: the constraint that replaces a field access keeps the side the access was on (R-C05-6, D61), truncation census.",
 "C06": " Added since: Name::union folded over seven small unions with a branch-coverage obligation; the field-initialisation rule (only a direct `self.f := e` marks f assigned).",
 "C11": " Added since: no pattern over an annotation carrier discriminates on `ty`; an assignment or setter call that copies the flag into an annotate field is the copy it is.",
 "C12": " Added since: a hand-written Ord is at least as fine as Eq (R-C12-8); inherited members are excluded by name; review keys are attributed to the owning function and iteration spellings are one kind.",
 "C13": " Added since: every path through a list-building loop pushes exactly once; lists paired by position are not re-ordered or shortened in place.",
 "C14": " Added since: AST::from_str folded over a token stream (what reaches the parser is the stream without comments, in order).",
 "C15": " Added since: census of textual operations in check:: and generate::; every ordering decision of the generator with the type of its key (R-C15-7; the sort of union members by name is known finding D57); constant tables used with `contains` are read.",
 "C16": " Added since: add_import / add_from_import folded over a sequence of registrations (every module and name once, under its own module).",
 "C17": " Added since: `init` folded over five class shapes, CoreFunOp::from folded as the inverse of Display, the pairing-by-position obligations of the project pipeline.",
 "C19": " Added since: the text that is parsed is the text that is attached; index and label of each quoted line evaluated for reported lines 1..6; the panic census covers everything the renderers reach.",
 "C20": " Added since: every `return` of Name::is_superset_of is one of the two reviewed rejections; monotone accumulators; census of the operations that merge or drop nullability (R-C20-7); unify_type's accept condition and direction (shared).",
}

# property -> (technique, level text, level note, design ref)
CLAIMED = {
 "C10": ("template/precedence-table extraction + exhaustive triple enumeration against the Python grammar table",
         "Decides the printer-level statement completely for the expression fragment: every (template, hole, child form) triple - "
         "about 4000 - is enumerated and must be either unambiguous under Python's precedence/associativity/chaining rules or routed through "
         "the printer's own protection tables, which are re-read from source. Sufficient by induction over the tree, necessary per triple.",
         "Trusts tables/python_expr.json (Python reference 6.17), rustc's macro expansion, syn. Does not decide the end-to-end clause from Mamba text.",
         "5/C10"),
 "C11": ("syntactic taint analysis of the annotate flag (lexically resolved bindings) + who-may-read over MIR field projections",
         "Decides that no value derived from the annotate flag reaches anything but annotation fields of the Core tree, that nothing under its "
         "control can fail/return/convert program text, that no stage other than generate:: reads it, and that annotations read back from the "
         "Core tree only feed annotation holes of the printer. Sufficient for 'same verdict' and 'same program after erasing annotations' at "
         "the level of the Core tree.",
         "Intraprocedural taint; interprocedural flows are covered through the Core.ty field rule (R-C11-3). Typing imports may differ (allowed by the property).",
         "5/C11"),
 "C03": ("panic-obligation census on MIR against a reviewed table + recursion census over the call graph SCCs + loop-progress and parser-callback must-consume (greatest fixpoint) + sign analysis of signed->unsigned casts",
         "Decides the structural half of totality: every construct that can panic (79 explicit sites and 70 arithmetic asserts today) is mechanically "
         "discharged or reviewed with its invariant, and the invariants themselves are checked (never-shrinking constraint vector, zero carets only from "
         "invisible(), union never on invisible); every recursive SCC (38) is an owned-tree recursion, reviewed, or protected by the acyclicity "
         "validation; every loop (77) has a progress call and every parser loop callback (21) consumes a token on each Ok path; the unifier's "
         "re-insertion guard is intact.",
         "Time bound and absolute stack depth are not decided (assumption: nesting <= 500, input < 2 GiB). Known finding D9 (unifier recursion depth) is listed.", "5/C03"),
 "C07": ("Ok-path must-call on resolved MIR + decision-table enumeration + flag provenance + environment field-flow (abstract interpretation over the syntax)",
         "Decides four structural necessary conditions of the reject half: every path through the reassignment arm to an Ok return passes the "
         "mutability check (all CFG paths, resolved callees); the check's own decision table equals the specification on all 16 valuations; the "
         "mutability flag stored at every definition site is the conjunction of the declared flags; definitions do not escape scope-closing constructs "
         "(shadowing cannot replace an outer `fin` definition afterwards).",
         "Does not decide the accept half nor the survival of the flag through the shadowing index map for all programs.", "5/C07"),
 "C08": ("Ok-path must-call on MIR for every callee-resolution site + environment field-flow for the caught set (returned and handed-down environments) + operand provenance + construction-site tables",
         "Decides: every function that types a call of a resolved Function passes its raises to the check (one known finding: method calls); the caught "
         "set is enlarged only for the expression a handle guards and for a function body with its declared raises, and never escapes; ancestor "
         "direction and polarity of check_raises_caught; declared raises must descend from Exception; handle -> try/except keeps every arm with its class.",
         "Hierarchy-sensitive acceptance for all programs is not decided. Known finding D11 is listed in known_findings.json.", "5/C08"),
 "C09": ("environment field-flow: abstract interpretation of every constraint-generator function over the Environment record with assume/guarantee summaries",
         "Decides for every construct (every arm of every generator function, about 120) which fields of the environment it returns and hands down: "
         "scope-closing constructs return the incoming variables, definition carriers are the reviewed ones, the unassigned-field join is "
         "in & (branch1 | branch2) as a truth table, bodies that may not run do not assign; identifier lookup ends in `Undefined variable`.",
         "Path-insensitive except for conditions on the incoming boolean flags; the x@n shadowing renaming is not decided.", "5/C09"),
 "C12": ("hash-order flow census on MIR (taint from every HashSet/HashMap iteration to its terminal consumer) + who-may-call for other nondeterminism sources + Eq/Hash consistency + stub uniqueness",
         "Decides that the iteration order of a std hash container reaches an order-sensitive consumer only at reviewed sites (46 today, each with a "
         "reason; 5 are genuine findings, reproduced and listed), that no time/env/pid/thread/random source is called, that no mutable global state "
         "exists, that manual Hash/Eq pairs are consistent, and that lookups by name are over sets with unique names where the set comes from the tree.",
         "The census is conservative: an unreviewed consumer is reported. Constraint-push order is reviewed as benign by reading, not proved.", "5/C12"),
 "C13": ("dominance and who-may-write on MIR + order-preservation / stage-barrier / provenance rules on the syntax of lib.rs and io.rs",
         "Decides the structural clauses: the write loop is dominated by the success of the whole pipeline; only io::write_source (and transpile_dir for "
         "the output directory) touches the file system; input and output path lists are order-preserving maps of one list, zipped by position, "
         "renamed to .py, opened with truncate; every stage returns all errors before the next starts; one shared context is built before any check; "
         "duplicate classes are silently dropped when the context is built (known finding D10).",
         "Non-interference of an unrelated file and short writes are not decided.", "5/C13"),
 "C14": ("sibling agreement over computed parser sites (newline-run tolerance) + lexer model + state-machine shape rules on the syntax",
         "Decides: every parser site that consumes a newline before a continuation tolerates a run of newlines (21 sites, also after every Indent); "
         "comments are filtered before parsing and never mentioned by the parser; LF and CRLF create the same token; output is normalised to LF "
         "unconditionally; 1-tuples are folded; spaces count as indentation only before the first token, newline resets unconditionally.",
         "The invariance of the whole indentation automaton under every trivia placement is not decided (that is executing the machine).", "5/C14"),
 "C18": ("path enumeration of the lexer's fixed-spelling arms composed with the Display and keyword tables + finite-domain folding of the caret / indent arithmetic (rules/smalleval.py) + must-call on MIR",
         "Decides consumed = spelled on every one of the 44 fixed-spelling lexer paths, printed form = lexeme + consumed delimiters for the 7 variable "
         "tokens, the keyword round trip (38 rows), pairwise distinct spellings; the end of a token = (line + number of line breaks, 1 + characters after the last break) "
         "computed by one function that both Lex::new and State::token use, widths in characters; Indent/Dedent/flush counts telescope for all column pairs 1..17; "
         "Indent tokens cover the leading spaces of their level; the interpolation offset is a caret that runs along the literal, applied to nested tokens and nested errors, "
         "shifting the column on the first line only; flush_indents and exactly one Eof on the Ok path of tokenize.",
         "Order of the batched newline tokens is a known finding (D56); what the parser does with unbalanced-looking but balanced streams is not part of this property.", "5/C18"),
 "C19": ("provenance tracing of every rendered error on the syntax + non-emptiness of every Err(vector) + renderer obligations from the MIR panic census + index/label agreement of quoted lines",
         "Decides: every error rendered by mamba_to_python passed with_source of its own file (one known finding: context errors), per-file lists are "
         "only zipped with lists of equal length, every Err carrying a vector is built from a provably non-empty one (120 sites), the renderers' "
         "panic obligations (of everything the renderers reach) are discharged, index and label of each quoted line agree for reported lines 1..6 (folded), the lexer counts lines where lines() splits, "
         "the text that is parsed is the text that is attached (no transformation between reading, lexing and with_source), and the lexer's line bookkeeping rules of C18.",
         "`Some diagnostic is on line L` needs the checker's behaviour and is not decided.", "5/C19"),
 "C15": ("census of identifier-compared strings against the documented table + lexer charset + call-resolution order + no textual matching on rendered code",
         "Decides that no undocumented name is special-cased anywhere in check:: or generate:: (52 strings today, each documented), that the internal "
         "`@` marker cannot be lexed, that every lexer keyword is documented, that user variables are resolved before built-in stubs and that the "
         "generator never decides by substring matching on printed identifiers.",
         "Interaction of user names with names the generator imports (math, Optional ..) needs scope reasoning on the output and is not decided.", "5/C15"),
 "C16": ("construction-site pairing (every use of a support name covered by a preceding import registration on every path) + prepend/dedup structure + name table against CPython builtins",
         "Decides the pairing clause completely for the generator: each of the 8 support-name uses is dominated by the registration of its import from the "
         "right module, imports are prepended unfiltered and de-duplicated, and every Python name the type table can emit is a builtin, imported, or "
         "unreachable (one known finding: Collection -> collection).",
         "Duplicates with the user's own imports and shadowing are not decided.", "5/C16"),
 "C17": ("field-mapping tables of the definition arms + order-preservation of list derivations + operator/dunder round-trip tables + printer template model",
         "Decides that parameters keep name, variadic marker and default presence, that parameter and parent lists reach the output through "
         "order-preserving steps only, that function names are copied (init -> __init__), that operator definitions map to the right dunder both ways, "
         "that __init__ is self + class arguments with parent calls first, and that no class member is dropped or ordered by hash.",
         "That __init__ bodies perform the right assignments for every program is not decided.", "5/C17"),
 "C01": ("chain composition over five stage tables (lexer spelling, expression parser, Node->NodeTy, NodeTy->Core, printer template) against the documented operator table + drop review + conversion census + sibling agreement of the desugaring walkers + construction-site table of range/slice + State-flag site census; reuses the C10 (grouping) and C11 (annotate) rule sets",
         "Decides the shape-level necessary conditions of meaning preservation: each of the 34 operator rows keeps its documented meaning and operand order through "
         "all five stages and is converted one-to-one; only reviewed type-level variants vanish at a stage boundary; every child of every node taken apart in "
         "generate::convert is converted (181 rows); append_ret and append_assign descend through the same fields of the same 7 compound variants; range/slice "
         "arguments are from, to(+1 iff inclusive), step default 1; implicit return is requested only for a declared return type and the pending flags are reset "
         "for children; printing never regroups operators (C10) and the annotate flag reaches annotations only (C11).",
         "Equality of observable behaviour is not decided. Known findings: D34 (`?` printed as `or`), D35 (slice ends off by one), D36 (inclusive range with negative step), D2c (explicit parentheses on same-level right operands).", "5/C01"),
 "C02": ("template instantiation against a grammar oracle (the printer's template model, re-extracted on every run, is evaluated on every syntactically relevant combination of child shapes and CPython's parser decides each instance) + layout-helper shape rules + construction-site guards for the template preconditions + expression/statement classification of what the desugaring wrappers wrap + delimiter agreement + open-options of the writer; reuses the C10 hole/precedence triples",
         "Decides the shape-level half of the property: each of the 76 printer templates yields text the Python grammar accepts for every combination of "
         "present/absent optional parts, empty/one/two-element lists and block/single/nested/empty bodies at nesting depths 0-2 (about 860 instances), except under "
         "four preconditions (non-empty except/cases/import lists, no default on a vararg) each of which is established at every construction site or by a rejecting "
         "parser rule; bodies can never print as nothing; append_ret/append_assign wrap only variants whose template is a Python expression; string delimiters agree; "
         "operands that need parentheses get them; output files are truncated; strings end at their quote or with an error, integers lose leading zeros, string text is printed on one line, and no hard keyword of Python is available as a name. Nine genuine defects found by these rules were repaired (D18, D37-D44).",
         "That every literal lexeme the lexer accepts is a Python literal is decided only for the shapes of R-C02-7 (escape sequences and quotes inside interpolations are not).", "5/C02"),
 "C04": ("traversal census of the constraint generator + constraint census + dispatch totality + operator->protocol-method agreement through the Node->NodeTy->Core->printer chain + strict-lookup Ok-path rule on MIR + stub signatures against a frozen CPython table",
         "Decides the structural necessary conditions of soundness: every AST child the generator takes apart is visited, delegated or rejected "
         "(317 rows; the unvisited ones are reviewed, 4 are genuine findings), every variant is dispatched to a handler arm, every operator is typed by "
         "the protocol method of the Python operator it is printed as with the same receiver, literals by their Python class, an unresolved identifier, "
         "function, class, field or method is an error on every CFG path on which the search found nothing, access constraints look up every member "
         "of a union, fields are definitely assigned, and every bundled stub signature (about 100 methods) is true of CPython 3.10 (existence, "
         "accepted argument classes, result classes).",
         "Soundness of unification itself (substitution, Any, generics) is not decided. 15 known-finding keys (D19, D20, D23, D27, D28, D30, D31) are listed with inputs.", "5/C04"),
 "C05": ("sibling agreement of the four arity matchers + constraint census with operand roles against a reviewed table + environment field-flow of return_type/is_expr/in_fun + direction of unify_type",
         "Decides: every formal/actual matcher constrains pairs, rejects extra arguments unconditionally and missing ones unless defaulted; every one of "
         "the 63 `parent >= child` constraint sites has the reviewed direction and operand roles (a removed site or a swapped pair is reported); the "
         "declared return type and the expression flag are handed down unchanged to every nested construct and set exactly for a function body; the "
         "comparison is parent.is_superset_of(child).",
         "Does not decide that unification propagates the constraints soundly.", "5/C05"),
 "C06": ("decision-table extraction of the nullable layer of TrueName::is_superset_of + reader census of the nullable flag + must-assign set of None/undefined constraints",
         "Decides the nullable clause on every valuation of the extracted decision table (T? accepts T and None; T rejects T? and None unless equal), "
         "that every reader of the is_nullable flag is reviewed, that `None` literals and `?` types set the flag at the reviewed sites, and that "
         "undefined constraints are generated for None.",
         "Flow-sensitive narrowing (`if x != None`) is not modelled by the checker at all and is not decided.", "5/C06"),
 "C20": ("decision-table extraction + exhaustive small-model check of the extracted relation over all 29 class preorders on three classes + shape rules for the union and class layers",
         "Decides for the nullable layer that the extracted relation is reflexive and transitive on {a,b,c}x{plain,nullable}+None for every class order "
         "(a counter-example to transitivity needs three types, so this is complete for the layer), that the union layer is for-all/exists over "
         "members, that has_parent is reflexive, has Any as top and otherwise searches ancestors only, and that unions are hash sets joined by set union.",
         "Transitivity through the parent graph with generics and the tuple special case are not decided (shape rules fail closed on any rewrite).", "5/C20"),
}
NA_REASON_PENDING = "check under construction in this round; see DESIGN.md section 5 for the planned rules"

def main():
    checks = []
    for pid in ALL:
        if pid not in CLAIMED:
            continue
        tech, text, note, ref = CLAIMED[pid]
        checks.append({
            "property_id": pid,
            "quick_cmd": f"./check {pid} --tier quick",
            "thorough_cmd": f"./check {pid} --tier thorough",
            "evidence_file": f"/verif/evidence/{pid}.json",
            "replay_cmd_template": f"./check {pid} --replay {{path}}",
            "engine": "mirfacts+synfacts+rules",
            "level_claimed": {"category": "other", "text": text + ADDENDA.get(pid, ""), "design_ref": "DESIGN.md " + ref + " and R1"},
            "level_note": note,
            "technique": "static analysis: " + tech,
        })
    na = [{"property_id": p, "reason": NA.get(p, NA_REASON_PENDING)} for p in ALL if p not in CLAIMED]
    man = {
        "version": 1,
        "setup_cmd": "./setup.sh",
        "hooks": {"guard": "mamba_verif", "enable": "none needed: nothing is executed, the analyses read the source (no hook commits in /repo)",
                  "baseline_off_cmd": "/verif/tools/baseline.sh /repo", "source_commits": [], "add_only": True},
        "engines": [
            {"name": "mirfacts", "path": "engines/mirfacts", "serves_properties": sorted(CLAIMED), "kind_free_text": "rustc_private driver: resolved MIR (calls, CFG, casts, field projections, asserts) as JSON lines"},
            {"name": "synfacts", "path": "engines/synfacts", "serves_properties": sorted(CLAIMED), "kind_free_text": "syn over the macro-expanded crate: generic JSON syntax tree"},
            {"name": "rules", "path": "rules", "serves_properties": sorted(CLAIMED), "kind_free_text": "Python 3 stdlib rule layer; one module per property; reviewed tables under tables/"},
        ],
        "checks": checks,
        "not_applicable": na,
        "notes": "Static analysis only: no check runs mamba, emitted Python or the test-suite. Every claimed property is claimed for the structural "
                 "clauses named in its level text (DESIGN.md section 5), not for the run-time behaviour as a whole. Genuine defects found are "
                 "either repaired by `fix:` commits in /repo or listed in known_findings.json.",
    }
    with open(os.path.join(HERE, "MANIFEST.json"), "w") as fh:
        json.dump(man, fh, indent=1)
    print(f"MANIFEST.json: {len(checks)} checks, {len(na)} not_applicable")

NA = {}
if __name__ == "__main__":
    main()
