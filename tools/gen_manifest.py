#!/usr/bin/env python3
"""Writes /verif/MANIFEST.json from the table below (kept in one place so that it is always valid)."""
import json, os
HERE = os.path.dirname(os.path.dirname(os.path.abspath(__file__)))
ALL = ["C%02d" % i for i in range(1, 21)]

# property -> (technique, level text, level note, design ref)
CLAIMED = {
 "C10": ("template/precedence-table extraction + exhaustive triple enumeration against the Python grammar table",
         "Decides the printer-level statement completely for the expression fragment: every (template, hole, child form) triple - "
         "about 4000 - is enumerated and must be either unambiguous under Python's precedence/associativity/chaining rules or routed through "
         "the printer's own protection tables, which are re-read from source. Sufficient by induction over the tree, necessary per triple.",
         "Trusts tables/python_expr.json (Python reference 6.17), rustc's macro expansion, syn. Does not decide the end-to-end clause from Mamba text.",
         "5/C10"),
 "C11": ("syntactic taint analysis of the annotate flag (lexically resolved bindings) + who-may-read over MIR field projections",
         "Decides that no value derived from the annotate flag reaches anything but annotation fields of the Core tree, that nothing under its "
         "control can fail/return/convert program text, that no stage other than generate:: reads it, and that annotations read back from the "
         "Core tree only feed annotation holes of the printer. Sufficient for 'same verdict' and 'same program after erasing annotations' at "
         "the level of the Core tree.",
         "Intraprocedural taint; interprocedural flows are covered through the Core.ty field rule (R-C11-3). Typing imports may differ (allowed by the property).",
         "5/C11"),
}
NA_REASON_PENDING = "check under construction in this round; see DESIGN.md section 5 for the planned rules"

def main():
    checks = []
    for pid in ALL:
        if pid not in CLAIMED:
            continue
        tech, text, note, ref = CLAIMED[pid]
        checks.append({
            "property_id": pid,
            "quick_cmd": f"./check {pid} --tier quick",
            "thorough_cmd": f"./check {pid} --tier thorough",
            "evidence_file": f"/verif/evidence/{pid}.json",
            "replay_cmd_template": f"./check {pid} --replay {{path}}",
            "engine": "mirfacts+synfacts+rules",
            "level_claimed": {"category": "other", "text": text, "design_ref": "DESIGN.md " + ref},
            "level_note": note,
            "technique": "static analysis: " + tech,
        })
    na = [{"property_id": p, "reason": NA.get(p, NA_REASON_PENDING)} for p in ALL if p not in CLAIMED]
    man = {
        "version": 1,
        "setup_cmd": "./setup.sh",
        "hooks": {"guard": "mamba_verif", "enable": "none needed: nothing is executed, the analyses read the source (no hook commits in /repo)",
                  "baseline_off_cmd": "/verif/tools/baseline.sh /repo", "source_commits": [], "add_only": True},
        "engines": [
            {"name": "mirfacts", "path": "engines/mirfacts", "serves_properties": sorted(CLAIMED), "kind_free_text": "rustc_private driver: resolved MIR (calls, CFG, casts, field projections, asserts) as JSON lines"},
            {"name": "synfacts", "path": "engines/synfacts", "serves_properties": sorted(CLAIMED), "kind_free_text": "syn over the macro-expanded crate: generic JSON syntax tree"},
            {"name": "rules", "path": "rules", "serves_properties": sorted(CLAIMED), "kind_free_text": "Python 3 stdlib rule layer; one module per property; reviewed tables under tables/"},
        ],
        "checks": checks,
        "not_applicable": na,
        "notes": "Static analysis only: no check runs mamba, emitted Python or the test-suite. Every claimed property is claimed for the structural "
                 "clauses named in its level text (DESIGN.md section 5), not for the run-time behaviour as a whole. Genuine defects found are "
                 "either repaired by `fix:` commits in /repo or listed in known_findings.json.",
    }
    with open(os.path.join(HERE, "MANIFEST.json"), "w") as fh:
        json.dump(man, fh, indent=1)
    print(f"MANIFEST.json: {len(checks)} checks, {len(na)} not_applicable")

NA = {}
if __name__ == "__main__":
    main()
