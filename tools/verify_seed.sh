#!/bin/bash
# usage: tools/verify_seed.sh <Cxx> <A|B>   - confirms a sub-agent's seeded change in a scratch worktree and stores it under /verif/seeded/
# checks: demo passes on clean HEAD, fails with the patch, pinned suite unchanged with the patch.
P=$1; X=$2
SRC=${SEED_SRC:-/tmp/agents/out_$P/$X}
WT=/tmp/seed_wt
OUT=/verif/seeded/${P}_$X
[ -f $SRC/patch.diff ] || { echo "no patch for $P $X"; exit 2; }
if [ ! -d $WT ]; then git -C /repo worktree add -f --detach $WT HEAD >/dev/null 2>&1; cp -r /repo/target $WT/target; fi
git -C $WT checkout -q --detach $(git -C /repo rev-parse HEAD); git -C $WT checkout -q -- .; git -C $WT clean -fdq -e target
cd $SRC
bash ./demo.sh $WT >/tmp/seed_clean.log 2>&1; RC_CLEAN=$?
git -C $WT apply $SRC/patch.diff || { echo "$P $X: patch does not apply"; exit 3; }
bash ./demo.sh $WT >/tmp/seed_patched.log 2>&1; RC_PATCH=$?
BL=$(/verif/tools/baseline.sh $WT 2>&1 | tail -3); RC_BL=$?
git -C $WT checkout -q -- .; git -C $WT clean -fdq -e target
echo "$P $X: demo clean rc=$RC_CLEAN, demo patched rc=$RC_PATCH, baseline: $BL"
if [ $RC_CLEAN -eq 0 ] && [ $RC_PATCH -ne 0 ] && echo "$BL" | grep -q "stable tests not passing: 0"; then
  mkdir -p $OUT; cp -r $SRC/* $OUT/
  python3 - "$P" "$X" "$RC_CLEAN" "$RC_PATCH" <<'PY'
import json,sys,os
p,x,rc,rp=sys.argv[1:5]
out=f"/verif/seeded/{p}_{x}"
notes=open(out+"/notes.md").read() if os.path.exists(out+"/notes.md") else ""
json.dump({"property":p,"variant":x,"origin":"independent sub-agent given only the property text and a scratch worktree",
  "confirmed":{"demo_on_clean_head_rc":int(rc),"demo_with_patch_rc":int(rp),"pinned_suite_with_patch":"538/538 stable tests pass (tools/baseline.sh)",
               "commands":["bash demo.sh <worktree>  (clean HEAD)","git apply patch.diff && bash demo.sh <worktree>","/verif/tools/baseline.sh <worktree>"]},
  "needs_to_manifest":"see notes.md","notes_head":notes[:600]},open(out+"/meta.json","w"),indent=1)
PY
  echo "KEPT $OUT"
else
  echo "REJECTED $P $X"
fi
