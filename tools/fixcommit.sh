#!/bin/bash
# usage: fixcommit.sh <message-file> ; runs the pinned suite on /repo's working tree and commits if it still matches the baseline
set -e
cd /repo
/verif/tools/baseline.sh /repo
git commit -qa -F "$1"
git log --oneline | head -1
