#!/bin/bash
# Runs the repository's pinned test-suite (guard OFF: no --cfg mamba_verif) and compares with BASELINE.json.
# usage: tools/baseline.sh [repo_dir]
set -u
REPO=${1:-/repo}
cd "$REPO" || exit 2
export CARGO_NET_OFFLINE=true
if [ -f /w/lib/nextest.toml ] && command -v cargo-nextest >/dev/null; then
  cargo nextest run --workspace --no-fail-fast --tool-config-file pb:/w/lib/nextest.toml --profile pb --test-threads 8 --offline >/dev/null 2>&1
  python3 - "$REPO" <<'PY'
import json,sys,xml.etree.ElementTree as ET
repo=sys.argv[1]
b=json.load(open('/root/.vp/BASELINE.json'))
root=ET.parse(repo+'/target/nextest/pb/junit.xml').getroot()
passed=set(); failed=set()
for tc in root.iter('testcase'):
    tid=(tc.get('classname') or '')+'::'+(tc.get('name') or '')
    if tc.find('failure') is not None or tc.find('error') is not None: failed.add(tid)
    else: passed.add(tid)
passed-=failed
missing=[t for t in b['stable_pass'] if t not in passed]
print(f"baseline: {len(b['stable_pass'])} stable; passed now {len(passed)}; failed now {len(failed)}; stable tests not passing: {len(missing)}")
for m in missing[:50]: print("  MISSING", m)
sys.exit(1 if missing else 0)
PY
else
  cargo test --workspace --no-fail-fast --offline
fi
