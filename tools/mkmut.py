#!/usr/bin/env python3
"""usage: mkmut.py <out.diff> <file-relative-to-repo> <old> <new> [count]  - literal replacement -> unified diff against /repo HEAD"""
import sys, subprocess, os, tempfile, shutil
out, rel, old, new = sys.argv[1:5]
cnt = int(sys.argv[5]) if len(sys.argv) > 5 else 1
src = open('/repo/' + rel).read()
assert src.count(old) >= 1, f"pattern not found in {rel}: {old!r}"
if cnt == 1:
    assert src.count(old) == 1, f"pattern occurs {src.count(old)} times"
new_src = src.replace(old, new)
d = tempfile.mkdtemp()
a = os.path.join(d, 'a', rel); b = os.path.join(d, 'b', rel)
os.makedirs(os.path.dirname(a)); os.makedirs(os.path.dirname(b))
open(a, 'w').write(src); open(b, 'w').write(new_src)
r = subprocess.run(['diff', '-u', '--label', 'a/' + rel, '--label', 'b/' + rel, a, b], capture_output=True, text=True)
open(out, 'w').write(r.stdout)
shutil.rmtree(d)
print(out, len(r.stdout.splitlines()), 'lines')
