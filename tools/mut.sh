#!/bin/bash
# usage: tools/mut.sh <patch.diff | -r "sed-expr file"> <Cxx> [Cxx...]
# applies a patch to a scratch worktree of /repo (HEAD), runs the given checks against it, resets it.
WT=/tmp/mamba_wt
if [ ! -d $WT ]; then git -C /repo worktree add -f --detach $WT HEAD >/dev/null 2>&1 || exit 3; fi
git -C $WT checkout -q --detach $(git -C /repo rev-parse HEAD) && git -C $WT checkout -q -- . && git -C $WT clean -fdq
PATCH=$1; shift
if ! git -C $WT apply "$PATCH"; then echo "PATCH-DOES-NOT-APPLY $PATCH"; exit 3; fi
rc=0
for c in "$@"; do
  MAMBA_REPO=$WT VERIF_EVIDENCE_DIR=/tmp/mut_evidence /verif/check $c --tier quick 2>&1 | grep -v "^  rule" | sed "s/^/[$c] /" | cut -c1-400
done
git -C $WT checkout -q -- . && git -C $WT clean -fdq
