#!/bin/bash
# usage: run.sh patch  -> runs all 20 checks on the patched scratch tree, prints only FAIL lines
WT=${ALLCHK_WT:-/tmp/allchk_wt}
if [ ! -d $WT ]; then git -C /repo worktree add -f --detach $WT HEAD >/dev/null 2>&1 || exit 3; fi
git -C $WT checkout -q --detach $(git -C /repo rev-parse HEAD) && git -C $WT checkout -q -- . && git -C $WT clean -fdq
git -C $WT apply "$1" || { echo "PATCH-DOES-NOT-APPLY $1"; exit 3; }
(cd $WT && CARGO_TARGET_DIR=${ALLCHK_WT:-/tmp/allchk}_target cargo check --offline --lib 2>&1 | grep -E "^error" -A5 | head -10)
for c in C01 C02 C03 C04 C05 C06 C07 C08 C09 C10 C11 C12 C13 C14 C15 C16 C17 C18 C19 C20; do
  out=$(MAMBA_REPO=$WT VERIF_EVIDENCE_DIR=${ALLCHK_WT:-/tmp/mut}_evidence /verif/check $c --tier quick 2>&1); rc=$?
  if [ $rc -ne 0 ]; then echo "[$c rc=$rc]"; echo "$out" | grep -A1 "^VIOLATION\|CHECKER" | grep -v "^--" | head -6 | cut -c1-330; fi
done
echo "done $(basename $1)"
