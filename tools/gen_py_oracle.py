#!/usr/bin/env python3
"""One-off table generator (NOT part of any check): records what CPython does for the classes the bundled stubs describe.

For every class the stubs describe it records the attribute names of the real class and, for the operator protocol methods, what
the *operator* does (so reflected methods count): for each candidate operand class, whether `a <op> b` raises TypeError for some
sample pair, and the classes of the results. Value-dependent exceptions (ZeroDivisionError, IndexError, KeyError, ValueError) are
not type errors and are ignored. The output, tables/python_stub_oracle.json, is reviewed and frozen; checks only read the table.
Run with CPython 3.10:  PYENV_VERSION=3.10.13 python3 tools/gen_py_oracle.py
"""
import json, sys, os, operator

class _Fresh(dict):
    """sample values are rebuilt on every access (iterators are stateful)"""
    def __getitem__(self, k):
        return dict.__getitem__(self, k)()

    def items(self):
        return [(k, self[k]) for k in self.keys()]


SAMPLES = _Fresh({
    "int": lambda: [3, -2, 1], "float": lambda: [2.5, -1.5], "complex": lambda: [1 + 2j], "bool": lambda: [True, False], "str": lambda: ["ab", "7"],
    "slice": lambda: [slice(0, 1)], "list": lambda: [[1, 2]], "set": lambda: [{1}], "Tuple": lambda: [(1, 2)], "dict": lambda: [{1: 2}],
    "None": lambda: [None], "range": lambda: [range(3)],
    "dict_keys": lambda: [{1: 2}.keys()], "dict_values": lambda: [{1: 2}.values()],
    "str_iterator": lambda: [iter("ab")], "range_iterator": lambda: [iter(range(2))], "list_iterator": lambda: [iter([1, 2])],
    "set_iterator": lambda: [iter({1})], "tuple_iterator": lambda: [iter((1, 2))], "dict_keyiterator": lambda: [iter({1: 2})],
    "dict_valueiterator": lambda: [iter({1: 2}.values())],
})
ARG_CLASSES = ["int", "float", "complex", "bool", "str", "slice", "list", "set", "Tuple", "dict", "None", "range"]
PY = {"int": int, "float": float, "complex": complex, "bool": bool, "str": str, "slice": slice, "list": list, "set": set, "Tuple": tuple,
      "dict": dict, "range": range, "None": type(None), "Exception": Exception,
      "str_iterator": type(iter("")), "range_iterator": type(iter(range(1))), "list_iterator": type(iter([])), "set_iterator": type(iter(set())),
      "tuple_iterator": type(iter(())), "dict_keys": type({}.keys()), "dict_values": type({}.values()),
      "dict_keyiterator": type(iter({})), "dict_valueiterator": type(iter({}.values()))}
NAME = {}
for k, v in PY.items():
    NAME.setdefault(v, k)
BIN = {"__add__": operator.add, "__sub__": operator.sub, "__mul__": operator.mul, "__truediv__": operator.truediv,
       "__floordiv__": operator.floordiv, "__mod__": operator.mod, "__pow__": operator.pow, "__lt__": operator.lt, "__le__": operator.le,
       "__gt__": operator.gt, "__ge__": operator.ge, "__eq__": operator.eq, "__ne__": operator.ne,
       "__contains__": lambda s, a: a in s, "__getitem__": lambda s, a: s[a]}
UN = {"__next__": next, "__neg__": operator.neg, "__pos__": operator.pos, "__str__": str, "__bool__": bool, "__iter__": iter, "__invert__": operator.inv}


def cname_of(v):
    return NAME.get(type(v), type(v).__name__)


out = {"source": "CPython %d.%d.%d, tools/gen_py_oracle.py" % sys.version_info[:3],
       "semantics": "binary[M][A] = result classes of `c <op of M> a` for c of the class, a of class A; absent = TypeError for some sample pair",
       "classes": {}}
for cname, cls in PY.items():
    entry = {"attributes": sorted(dir(cls)), "binary": {}, "unary": {}}
    if cname in SAMPLES:
        for m, op in BIN.items():
            acc = {}
            for aname in ARG_CLASSES:
                good, results = True, set()
                for i in range(len(SAMPLES[cname])):
                    for av in SAMPLES[aname]:
                        sv = SAMPLES[cname][i]
                        try:
                            results.add(cname_of(op(sv, av)))
                        except TypeError:
                            good = False
                        except Exception:
                            pass
                if good and results:
                    acc[aname] = sorted(results)
            if acc:
                entry["binary"][m] = acc
        for m, op in UN.items():
            good, results = True, set()
            for sv in SAMPLES[cname]:
                try:
                    results.add(cname_of(op(sv)))
                except TypeError:
                    good = False
                except Exception:
                    pass
            if good and results:
                entry["unary"][m] = sorted(results)
        if cname in ("int", "float", "bool", "str"):
            acc = {}
            for aname in ARG_CLASSES:
                good = True
                for av in SAMPLES[aname]:
                    try:
                        cls(av)
                    except TypeError:
                        good = False
                    except Exception:
                        pass
                if good:
                    acc[aname] = [cname]
            entry["binary"]["__init__"] = acc
    out["classes"][cname] = entry
p = os.path.join(os.path.dirname(os.path.abspath(__file__)), "..", "tables", "python_stub_oracle.json")
json.dump(out, open(p, "w"), indent=0, sort_keys=True)
print("wrote", p)
