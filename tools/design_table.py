#!/usr/bin/env python3
"""prints the per-property result table of DESIGN.md (section R1.1) from the evidence files and known_findings.json"""
import json, glob, collections
kf = json.load(open('/verif/known_findings.json'))
known = collections.defaultdict(list)
fixed = collections.defaultdict(list)
for k in kf['known']:
    known[k['property']].append(k.get('id', '?'))
    for a in k.get('also', []):
        known[a].append(k.get('id', '?') + '*')
for k in kf['fixed']:
    fixed[k['property']].append(k.get('id', '?'))
    for a in k.get('also', []):
        fixed[a].append(k.get('id', '?') + '*')
def fold(lst):
    c = collections.Counter(lst)
    return ', '.join(f"{k}×{v}" if v > 1 else k for k, v in sorted(c.items(), key=lambda kv: (len(kv[0]), kv[0]))) or '–'
print("| id | rules (instances today) | obligations | fixed in /repo | known findings |")
print("|----|-------------------------|-------------|----------------|----------------|")
for f in sorted(glob.glob('/verif/evidence/C*.json')):
    e = json.load(open(f))
    cov = e['coverage']
    per = cov.get('per_rule_instances', {})
    rules = ', '.join(f"{r}={n}" for r, n in sorted(per.items()))
    print(f"| {e['property_id']} | {rules} | {cov.get('discharged')}/{cov.get('obligations')} | {fold(fixed[e['property_id']])} | {fold(known[e['property_id']])} |")
