#!/bin/bash
# Builds the two extractors from files on disk only (offline). ~35 s.
set -e
cd "$(dirname "$0")"
export CARGO_NET_OFFLINE=true
(cd engines/mirfacts && cargo build --release --offline 2>&1 | tail -2)
(cd engines/synfacts && cargo build --release --offline 2>&1 | tail -2)
test -x engines/mirfacts/target/release/mirfacts
test -x engines/synfacts/target/release/synfacts
echo "setup ok"
